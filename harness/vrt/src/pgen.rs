//! Type-erased operations on generated `pilota::prost::Message` types.
use bytes::Bytes;
use pilota::prost::Message;
use std::fmt::Debug;

#[derive(Clone, Debug, Default)]
pub struct PRt {
    pub decode_err: Option<String>,
    pub reencoded: Vec<u8>,
    pub encoded_len: usize,
    /// decode(reencoded) == first decode under the generated PartialEq
    pub second_equal: Option<bool>,
    pub second_err: Option<String>,
    /// encode_length_delimited / decode_length_delimited round trip reproduces `reencoded`
    pub framed_ok: bool,
    pub debug: String,
    /// decoding the same bytes from a segmented buffer disagreed with the contiguous decode
    pub chain_mismatch: Option<String>,
    /// (split point, re-encoding of what the segmented decode produced) where PartialEq said "different"
    pub chain_suspects: Vec<(usize, Vec<u8>)>,
}

fn roundtrip<M: Message + Default + PartialEq + Debug>(bytes: &[u8]) -> PRt {
    let mut out = PRt::default();
    let m = match M::decode(Bytes::copy_from_slice(bytes)) {
        Ok(m) => m,
        Err(e) => {
            out.decode_err = Some(format!("{:?}", e));
            return out;
        }
    };
    out.debug = vcore::evidence::truncate(&format!("{:?}", m), 200_000);
    out.encoded_len = m.encoded_len();
    out.reencoded = m.encode_to_vec();
    match M::decode(Bytes::copy_from_slice(&out.reencoded)) {
        Ok(m2) => out.second_equal = Some(m2 == m),
        Err(e) => out.second_err = Some(format!("{:?}", e)),
    }
    // the same bytes as a segmented buffer (Buf::chain): every decoder takes `impl Buf`, and a
    // varint, a length prefix or a short string may straddle a chunk boundary
    for k in split_points(bytes.len()) {
        use bytes::Buf;
        let chained = (&bytes[..k]).chain(&bytes[k..]);
        match M::decode(chained) {
            Ok(mc) if mc == m => {}
            // not equal under PartialEq (NaN, too): the caller compares the re-encodings
            // through the reference decoder
            Ok(mc) => {
                if out.chain_suspects.len() < 2 {
                    out.chain_suspects.push((k, mc.encode_to_vec()));
                }
            }
            Err(e) => {
                out.chain_mismatch = Some(format!("split at {} of {}: decode error {:?}", k, bytes.len(), e));
                break;
            }
        }
    }
    let framed = m.encode_length_delimited_to_vec();
    out.framed_ok = match M::decode_length_delimited(Bytes::from(framed)) {
        Ok(m3) => m3.encode_to_vec().len() == out.reencoded.len(),
        Err(_) => false,
    };
    out
}

#[derive(Clone, Debug)]
pub struct PMerge {
    pub concat: Result<Vec<u8>, String>,
    pub merged: Result<Vec<u8>, String>,
}

/// decode(A ++ B) versus { m = decode(A); m.merge(B) }, both re-encoded.
fn merge2<M: Message + Default + PartialEq + Debug>(a: &[u8], b: &[u8]) -> PMerge {
    let mut ab = a.to_vec();
    ab.extend_from_slice(b);
    let concat = M::decode(Bytes::from(ab)).map(|m| m.encode_to_vec()).map_err(|e| format!("{:?}", e));
    let merged = (|| {
        let mut m = M::decode(Bytes::copy_from_slice(a)).map_err(|e| format!("{:?}", e))?;
        m.merge(Bytes::copy_from_slice(b)).map_err(|e| format!("{:?}", e))?;
        Ok(m.encode_to_vec())
    })();
    PMerge { concat, merged }
}

fn decode_only<M: Message + Default>(bytes: &[u8]) -> bool {
    use bytes::Buf;
    // also as a segmented buffer; only the contiguous outcome is reported
    for k in split_points(bytes.len()) {
        let _ = M::decode((&bytes[..k]).chain(&bytes[k..]));
    }
    M::decode(Bytes::copy_from_slice(bytes)).is_ok()
}

/// A handful of split points spread over the input (every one for short inputs).
fn split_points(len: usize) -> Vec<usize> {
    if len < 2 {
        return vec![];
    }
    if len <= 24 {
        return (1..len).collect();
    }
    let mut v = vec![1, 2, 3, len / 4, len / 3, len / 2, len / 2 + 1, 2 * len / 3, len - 3, len - 2, len - 1];
    v.sort();
    v.dedup();
    v.retain(|k| *k > 0 && *k < len);
    v
}

fn decode_delimited_only<M: Message + Default>(bytes: &[u8]) -> bool {
    M::decode_length_delimited(Bytes::copy_from_slice(bytes)).is_ok()
}

/// (decode ok?, the harness's handle to the input is unique again)
fn leak_probe<M: Message + Default>(bytes: &[u8]) -> (bool, bool) {
    let held = Bytes::copy_from_slice(bytes);
    let r = M::decode(held.clone());
    let ok = r.is_ok();
    drop(r);
    (ok, bytes.is_empty() || held.is_unique())
}

#[derive(Clone)]
pub struct POps {
    pub roundtrip: fn(&[u8]) -> PRt,
    pub merge2: fn(&[u8], &[u8]) -> PMerge,
    pub decode_only: fn(&[u8]) -> bool,
    pub decode_delimited_only: fn(&[u8]) -> bool,
    pub leak_probe: fn(&[u8]) -> (bool, bool),
}

#[derive(Clone)]
pub struct PEntry {
    pub unit: &'static str,
    pub path: &'static str,
    pub ops: POps,
}

pub fn pentry<M: Message + Default + PartialEq + Debug + 'static>(unit: &'static str, path: &'static str) -> PEntry {
    PEntry { unit, path, ops: POps { roundtrip: roundtrip::<M>, merge2: merge2::<M>, decode_only: decode_only::<M>, decode_delimited_only: decode_delimited_only::<M>, leak_probe: leak_probe::<M> } }
}

//! Totality harness: run a decoder call under panic capture and allocation observation.
use crate::alloc;
use vcore::evidence::{catch, Fail};

#[derive(Clone, Copy, Debug)]
pub struct Limits {
    /// largest single request / peak live bytes allowed during the call
    pub alloc_bound: usize,
}

pub fn limits_for(input_len: usize) -> Limits {
    Limits { alloc_bound: (1 << 20) + 4096 * input_len }
}

#[derive(Debug, Clone, Copy, Default)]
pub struct Observed {
    pub max_request: usize,
    pub peak: isize,
    pub leaked: isize,
}

/// Runs `f`; a panic or an allocation beyond `limits` is a failure with a stable key.
/// `what` names the target (used in keys and messages).
pub fn observe<R>(what: &str, limits: Limits, f: impl FnOnce() -> R) -> Result<(R, Observed), Fail> {
    let start = alloc::begin();
    let r = catch(f);
    let snap = alloc::end(start);
    match r {
        Err(p) => Err(Fail::new(&format!("panic:{}:{}", what, panic_signature(&p)), format!("{}: panicked: {}", what, p))),
        Ok(v) => {
            let obs = Observed { max_request: snap.max_request, peak: snap.peak_over_start, leaked: snap.live };
            if snap.max_request > limits.alloc_bound {
                return Err(Fail::new(
                    &format!("alloc:{}", what),
                    format!("{}: a single allocation of {} bytes was requested (bound for this input: {})", what, snap.max_request, limits.alloc_bound),
                ));
            }
            // cumulative work: the bytes requested over the whole call, however briefly held
            // (a decoder that spins over elements that are not there allocates per iteration)
            let total_bound = (16usize << 20) + 65_536 * ((limits.alloc_bound - (1 << 20)) / 4096);
            if snap.total > total_bound {
                return Err(Fail::new(
                    &format!("alloc-total:{}", what),
                    format!("{}: {} bytes were allocated in {} requests during the call (bound for this input: {})", what, snap.total, snap.allocs, total_bound),
                ));
            }
            if snap.peak_over_start > limits.alloc_bound as isize {
                return Err(Fail::new(
                    &format!("alloc:{}", what),
                    format!("{}: peak live memory grew by {} bytes (bound for this input: {})", what, snap.peak_over_start, limits.alloc_bound),
                ));
            }
            Ok((v, obs))
        }
    }
}

/// A short stable signature of a panic message (numbers removed).
pub fn panic_signature(msg: &str) -> String {
    let mut s = String::new();
    let mut last_hash = false;
    for ch in msg.chars().take(80) {
        if ch.is_ascii_digit() {
            if !last_hash {
                s.push('#');
                last_hash = true;
            }
        } else if ch.is_ascii_alphanumeric() {
            s.push(ch);
            last_hash = false;
        } else if !s.ends_with('-') {
            s.push('-');
            last_hash = false;
        }
    }
    s.chars().take(48).collect()
}

// ---------------------------------------------------------------------------------------------
// runaway guard

static GUARD_CASE: std::sync::Mutex<String> = std::sync::Mutex::new(String::new());
static GUARD_BASE: std::sync::atomic::AtomicUsize = std::sync::atomic::AtomicUsize::new(usize::MAX);

/// Arms a monitor thread for computations that do not come back: a decoder iterating over a
/// count it has not checked allocates on every iteration (boxed futures, elements) without
/// ever growing its live memory. When more than `limit` allocation *requests* have been served
/// since the current case began (a count, so that one huge reservation -- a different defect --
/// does not trip it), `on_runaway(case json, requests)` is called on the monitor thread; it is
/// expected to report and end the process. The criterion is a number of allocations, not a
/// time: the verdict does not depend on how fast the machine is, only the moment it is noticed.
pub fn arm_runaway_guard(limit: usize, on_runaway: fn(&str, usize)) {
    static ONCE: std::sync::Once = std::sync::Once::new();
    ONCE.call_once(|| {
        std::thread::spawn(move || loop {
            std::thread::sleep(std::time::Duration::from_millis(25));
            let base = GUARD_BASE.load(std::sync::atomic::Ordering::Relaxed);
            if base == usize::MAX {
                continue;
            }
            let used = alloc::GLOBAL_ALLOCS.load(std::sync::atomic::Ordering::Relaxed).saturating_sub(base);
            if used > limit {
                let case = GUARD_CASE.lock().map(|c| c.clone()).unwrap_or_default();
                on_runaway(&case, used);
            }
        });
    });
}

/// Marks the beginning of a case for the runaway guard.
pub fn guard_case(case_json: impl FnOnce() -> String) {
    if let Ok(mut c) = GUARD_CASE.lock() {
        *c = case_json();
    }
    GUARD_BASE.store(alloc::GLOBAL_ALLOCS.load(std::sync::atomic::Ordering::Relaxed), std::sync::atomic::Ordering::Relaxed);
}

/// No case is running (the harness's own bookkeeping may allocate freely).
pub fn guard_idle() {
    GUARD_BASE.store(usize::MAX, std::sync::atomic::Ordering::Relaxed);
}

#!/bin/bash
# usage: harness/run.sh <Cxx> <quick|thorough> [extra vcheck args]
# Rebuilds the harness against /repo's current working tree (path dependencies), then runs the check.
# exit 0 held / 1 violation / 2 infrastructure failure or inconclusive
set -u
ID="$1"; TIER="${2:-quick}"; shift; shift || true
export CARGO_NET_OFFLINE=true
ROOT="$(cd "$(dirname "$0")/.." && pwd)"
export VERIF_ROOT="$ROOT"
# all binaries are looked up under $ROOT/target (a snapshot of /verif builds into its own directory)
export CARGO_TARGET_DIR="$ROOT/target"
cd "$ROOT/harness" || exit 2
mkdir -p "$ROOT/work" "$ROOT/evidence" "$ROOT/replays"
LOG="$ROOT/work/build-$ID.log"
if ! cargo build --offline -p vcheck -p vbuild -p vgen >"$LOG" 2>&1; then
  echo "INFRA: harness build failed (see $LOG)" >&2
  tail -30 "$LOG" >&2
  exit 2
fi
exec "$ROOT/target/debug/vcheck" "$ID" --tier "$TIER" "$@"

#!/bin/bash
# usage: harness/run.sh <Cxx> <quick|thorough> [extra vcheck args]
# Rebuilds the harness against /repo's current working tree (path dependencies), then runs the check.
# exit 0 held / 1 violation / 2 infrastructure failure or inconclusive
set -u
ID="$1"; TIER="${2:-quick}"; shift; shift || true
export CARGO_NET_OFFLINE=true
ROOT="$(cd "$(dirname "$0")/.." && pwd)"
export VERIF_ROOT="$ROOT"
# all binaries are looked up under $ROOT/target (a snapshot of /verif builds into its own directory)
export CARGO_TARGET_DIR="$ROOT/target"
cd "$ROOT/harness" || exit 2
mkdir -p "$ROOT/work" "$ROOT/evidence" "$ROOT/replays"
LOG="$ROOT/work/build-$ID.log"
if ! cargo build --offline -p vcheck -p vbuild -p vgen >"$LOG" 2>&1; then
  echo "INFRA: harness build failed (see $LOG)" >&2
  tail -30 "$LOG" >&2
  exit 2
fi
# a raw libFuzzer artifact (sanitizer report without an oracle failure) is replayed by its target
if [ "${1:-}" = "--replay" ] && [[ "${2:-}" == */fuzz-artifacts-*/* ]]; then
  T="$(basename "$(dirname "$2")")"; T="${T#fuzz-artifacts-}"
  export CARGO_TARGET_DIR="$ROOT/fuzz/target"
  if cargo +nightly fuzz run --fuzz-dir "$ROOT/fuzz" "$T" "$2" >"$ROOT/work/fuzz-replay.log" 2>&1; then
    echo "replay: property holds on this case"; exit 0
  fi
  grep -m1 "^VIOLATION" "$ROOT/work/fuzz-replay.log" || echo "VIOLATION property=$ID replay=$2"
  grep -m3 -E "ERROR: |panicked|SUMMARY" "$ROOT/work/fuzz-replay.log"
  exit 1
fi
rm -f "$ROOT/work/fuzz-$ID.json"
# replay files of earlier runs of this check are stale once it runs again
[ $# = 0 ] && rm -f "$ROOT"/replays/"$ID"-*.json
FZ=0
if [ "$TIER" = thorough ] && [ $# = 0 ] && [ -z "${VERIF_NO_FUZZ:-}" ]; then
  # coverage-guided campaigns over the same strategies and oracles (DESIGN.md section 6)
  "$ROOT/harness/fuzz.sh" "$ID" "${VERIF_FUZZ_RUNS:-200000}"; FZ=$?
fi
"$ROOT/target/debug/vcheck" "$ID" --tier "$TIER" "$@"; RC=$?
if [ $RC = 1 ] || [ $FZ = 1 ]; then exit 1; fi
if [ $RC != 0 ]; then exit $RC; fi
exit $FZ

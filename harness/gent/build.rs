fn main() {
    // the generated sources live outside the crate; rebuild when the composition changes
    let dir = std::env::var("VERIF_GEN_DIR").unwrap_or_else(|_| "/verif/work/gen_thrift".to_string());
    println!("cargo:rustc-env=VERIF_GEN_DIR={}", dir);
    println!("cargo:rerun-if-env-changed=VERIF_GEN_DIR");
    println!("cargo:rerun-if-changed={}/all.rs", dir);
}

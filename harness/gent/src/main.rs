//! Binary that links the Rust code pilota-build generated for the current corpus together with
//! the value-level checks (harness/vgen).
#[global_allocator]
static ALLOC: vrt::alloc::Counting = vrt::alloc::Counting;

#[allow(warnings, clippy::all)]
mod generated {
    include!(concat!(env!("VERIF_GEN_DIR"), "/all.rs"));
}

fn main() {
    std::process::exit(vgen::main(generated::table()));
}

//! Child process that runs pilota-build once:
//!   vbuild <thrift|proto> <out.rs | out-dir for workspace> <main idl>... [--include-dir d]...
//!          [--split] [--keep-unknown <idl>]... [--no-change-case] [--ignore-unused] [--touch <idl>:<Name>,...]
//!          [--workspace] [--dedup Name,Name,...]
//! Isolation matters: the builder may panic or call process::exit.
use std::path::PathBuf;

fn main() {
    let args: Vec<String> = std::env::args().skip(1).collect();
    if args.len() < 3 {
        eprintln!("usage: vbuild <thrift|proto> <out> <idl>... [options]");
        std::process::exit(64);
    }
    let kind = args[0].clone();
    let out = PathBuf::from(&args[1]);
    let mut idls: Vec<PathBuf> = vec![];
    let mut include_dirs: Vec<PathBuf> = vec![];
    let mut keep: Vec<PathBuf> = vec![];
    let mut touches: Vec<(PathBuf, Vec<String>)> = vec![];
    let mut split = false;
    let mut change_case = true;
    let mut ignore_unused = false;
    let mut workspace = false;
    let mut dedup: Vec<String> = vec![];
    let mut i = 2;
    while i < args.len() {
        match args[i].as_str() {
            "--include-dir" => {
                i += 1;
                include_dirs.push(PathBuf::from(&args[i]));
            }
            "--keep-unknown" => {
                i += 1;
                keep.push(PathBuf::from(&args[i]));
            }
            "--touch" => {
                i += 1;
                let (p, names) = args[i].split_once(':').expect("--touch path:Name,Name");
                touches.push((PathBuf::from(p), names.split(',').map(|s| s.to_string()).collect()));
            }
            "--split" => split = true,
            "--no-change-case" => change_case = false,
            "--ignore-unused" => ignore_unused = true,
            "--workspace" => workspace = true,
            "--dedup" => {
                i += 1;
                dedup = args[i].split(',').map(|s| s.to_string()).collect();
            }
            o => idls.push(PathBuf::from(o)),
        }
        i += 1;
    }
    let services: Vec<pilota_build::IdlService> = idls.iter().map(|p| pilota_build::IdlService::from_path(p.clone())).collect();
    let output = if workspace { pilota_build::Output::Workspace(out) } else { pilota_build::Output::File(out) };
    match kind.as_str() {
        "thrift" => {
            let mut b = pilota_build::Builder::thrift()
                .ignore_unused(ignore_unused)
                .split_generated_files(split)
                .change_case(change_case)
                .include_dirs(include_dirs)
                .keep_unknown_fields(keep);
            if !touches.is_empty() {
                b = b.touch(touches);
            }
            if !dedup.is_empty() {
                b = b.dedup(dedup.iter().map(|s| s.clone().into()));
            }
            b.compile_with_config(services, output);
        }
        "proto" => {
            let mut b = pilota_build::Builder::protobuf()
                .ignore_unused(ignore_unused)
                .split_generated_files(split)
                .change_case(change_case)
                .include_dirs(include_dirs)
                .keep_unknown_fields(keep);
            if !touches.is_empty() {
                b = b.touch(touches);
            }
            b.compile_with_config(services, output);
        }
        o => {
            eprintln!("unknown kind {}", o);
            std::process::exit(64);
        }
    }
    println!("VBUILD-OK");
}

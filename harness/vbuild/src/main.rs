fn main() {}
